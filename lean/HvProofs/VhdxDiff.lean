/-
  HvProofs.VhdxDiff — a differencing VHDX over a parent that reads as its own disk reads
  as the overlay `guestDiff` (C07): partially present blocks (sector bitmap, runs), not
  present blocks (parent), zero states, fully present blocks.
-/
import HvProofs.Layers
import HvProofs.Vhdx
namespace Hv.Vhdx
open Hv Hv.Layers Hv.Extracted.vhdx

/-- sector-wise equality of two contents gives equality of the sector-aligned slices -/
theorem slice_sectors (g h : Nat → UInt8) (a b ss cnt : Nat) (hss : 0 < ss)
    (e : ∀ j, j < cnt → ∀ i, i < ss → g ((a + j) * ss + i) = h ((b + j) * ss + i)) :
    slice g (a * ss) (cnt * ss) = slice h (b * ss) (cnt * ss) := by
  apply slice_shift
  intro k hk
  have h1 := Nat.div_add_mod k ss
  have h2 := Nat.mod_lt k hss
  have h3 : k / ss < cnt := by
    apply Nat.div_lt_of_lt_mul
    rw [Nat.mul_comm]; exact hk
  have := e (k / ss) h3 (k % ss) h2
  rw [Nat.add_mul, Nat.add_mul] at this
  rw [Nat.mul_comm ss (k / ss)] at h1
  have e1 : a * ss + k = a * ss + k / ss * ss + k % ss := by omega
  have e2 : b * ss + k = b * ss + k / ss * ss + k % ss := by omega
  rw [e1, e2]; exact this

theorem sbIndex_eq (v : Vhdx) (b : Nat) :
    v.sbIndex b = (b / v.chunkRatio) * (v.chunkRatio + 1) + v.chunkRatio := by
  unfold Vhdx.sbIndex
  rw [Nat.add_mul, Nat.mul_add, Nat.one_mul, Nat.mul_one]
  omega

theorem batRaw_sbIndex (v : Vhdx) (b : Nat) : v.batRaw (v.sbIndex b) = v.sbRaw b := by
  unfold Vhdx.sbRaw; rw [sbIndex_eq]

theorem sbIndex_lt (v : Vhdx) (hwf : WFD v) (b : Nat) (hb : b < v.pbCount) : v.sbIndex b < v.entryCount := by
  have hr := hwf.ratio_pos
  have hc := hwf.count
  rw [sbIndex_eq]
  have hq : b / v.chunkRatio < v.sbCount := by
    unfold Vhdx.sbCount
    apply Nat.div_lt_of_lt_mul
    have h1 := Nat.div_add_mod (v.pbCount + v.chunkRatio - 1) v.chunkRatio
    have h2 := Nat.mod_lt (v.pbCount + v.chunkRatio - 1) hr
    omega
  have : (b / v.chunkRatio + 1) * (v.chunkRatio + 1) ≤ v.sbCount * (v.chunkRatio + 1) :=
    Nat.mul_le_mul_right _ hq
  rw [Nat.add_mul, Nat.one_mul] at this
  omega

theorem pbIndex_lt_d (v : Vhdx) (hwf : WFD v) (b : Nat) (hb : b < v.pbCount) : v.pbIndex b < v.entryCount := by
  have h := sbIndex_lt v hwf b hb
  rw [sbIndex_eq] at h
  unfold Vhdx.pbIndex
  have hr := hwf.ratio_pos
  have h1 := Nat.div_add_mod b v.chunkRatio
  have h2 := Nat.mod_lt b hr
  rw [Nat.mul_add, Nat.mul_one] at h
  rw [Nat.mul_comm] at h1
  omega

/-- the run loop of a partially present block, against an abstract bit function `β`
    (`β j` = bitmap bit of the `j`-th requested sector) -/
theorem partialData_ok (v : Vhdx) (p : SectorReader) (hpar : v.parent = some p) (pc g : Nat → UInt8)
    (mb sector sib n N : Nat) (β : Nat → Nat) (hss : 0 < v.sectorSize)
    (hp : SectorReadsAs p v.sectorSize N pc) (hN : sector + n ≤ N)
    (hfile : mb * MB + (sib + n) * v.sectorSize ≤ v.fh.size)
    (hg0 : ∀ j, j < n → β j = 0 → ∀ i, i < v.sectorSize →
        g ((sector + j) * v.sectorSize + i) = pc ((sector + j) * v.sectorSize + i))
    (hg1 : ∀ j, j < n → β j ≠ 0 → ∀ i, i < v.sectorSize →
        g ((sector + j) * v.sectorSize + i) = v.fh.byte (mb * MB + ((sib + j) * v.sectorSize + i))) :
    ∀ (runs : List (Nat × Nat)) (rel : Nat), rel + (expand runs).length ≤ n →
      (∀ j, j < (expand runs).length → (expand runs)[j]? = some (β (rel + j))) →
      v.partialData mb sector sib runs rel
        = .ok (slice g ((sector + rel) * v.sectorSize) ((expand runs).length * v.sectorSize)) := by
  intro runs
  induction runs with
  | nil => intro rel _ _; simp [Vhdx.partialData, expand]
  | cons r rest ih =>
    obtain ⟨ty, cnt⟩ := r
    intro rel hlen hbits
    simp only [expand, List.length_append, List.length_replicate] at hlen hbits ⊢
    -- the sectors of this run all have kind `ty`
    have hty : ∀ j, j < cnt → β (rel + j) = ty := by
      intro j hj
      have := hbits j (by omega)
      rw [List.getElem?_append_left (by simpa using hj)] at this
      simp [hj] at this
      exact this.symm
    have hrest : ∀ j, j < (expand rest).length → (expand rest)[j]? = some (β (rel + cnt + j)) := by
      intro j hj
      have := hbits (cnt + j) (by omega)
      rw [List.getElem?_append_right (by simp)] at this
      simp only [List.length_replicate, Nat.add_sub_cancel_left] at this
      rw [this, Nat.add_assoc]
    have hd : (if ty = 0 then p (sector + rel) cnt
        else .ok (v.fh.read (mb * MB + (sib + rel) * v.sectorSize) (cnt * v.sectorSize)))
        = .ok (slice g ((sector + rel) * v.sectorSize) (cnt * v.sectorSize)) := by
      by_cases h0 : ty = 0
      · simp only [h0, if_true]
        rw [hp (sector + rel) cnt (by omega)]
        congr 1
        apply Eq.symm
        apply slice_sectors _ _ _ _ _ _ hss
        intro j hj i hi
        have := hg0 (rel + j) (by omega) (by rw [hty j hj]; exact h0) i hi
        rw [Nat.add_assoc]; exact this
      · simp only [h0, if_false]
        rw [File.read_eq_slice _ _ _ (by
          have : (sib + rel) * v.sectorSize + cnt * v.sectorSize ≤ (sib + n) * v.sectorSize := by
            rw [← Nat.add_mul]; exact Nat.mul_le_mul_right _ (by omega)
          omega)]
        congr 1
        apply Eq.symm
        have e1 : slice g ((sector + rel) * v.sectorSize) (cnt * v.sectorSize)
            = slice (fun x => v.fh.byte (mb * MB + x)) ((sib + rel) * v.sectorSize) (cnt * v.sectorSize) := by
          apply slice_sectors _ _ _ _ _ _ hss
          intro j hj i hi
          have := hg1 (rel + j) (by omega) (by rw [hty j hj]; exact h0) i hi
          rw [Nat.add_assoc, Nat.add_assoc]; exact this
        rw [e1]
        apply slice_shift
        intro i _
        simp only [Nat.add_assoc]
    unfold Vhdx.partialData
    simp only [hpar]
    rw [hd]
    simp only [bind, Except.bind]
    rw [ih (rel + cnt) (by omega) hrest]
    simp only
    congr 1
    rw [Nat.add_mul cnt, slice_append, ← Nat.add_mul, Nat.add_assoc]

/-- bytes of a slice by index -/
theorem slice_getD (g : Nat → UInt8) (off len k : Nat) (h : k < len) : (slice g off len).getD k 0 = g (off + k) := by
  unfold slice
  simp [List.getD, h]

set_option maxRecDepth 4096 in
/-- one iteration's data of a differencing image -/
theorem chunk_diff_ok (v : Vhdx) (pc : Nat → UInt8) (hwf : WFD v) (hp : ParentOK v pc)
    (block sib n : Nat) (hb : block < v.pbCount) (hsib : sib < v.spb) (hfit : sib + n ≤ v.spb) (hn : 0 < n)
    (hN : block * v.spb + sib + n ≤ v.nSectors) :
    v.chunk block (block * v.spb + sib) sib n
      = .ok (slice (v.guestDiff pc) ((block * v.spb + sib) * v.sectorSize) (n * v.sectorSize)) := by
  have hss := hwf.ss_pos
  have hbs := hwf.bs
  have hr := hwf.ratio_pos
  obtain ⟨p, hpar, hpr⟩ := hp
  have hpr0 := hpr (block * v.spb + sib) n hN
  have hidx := pbIndex_lt_d v hwf block hb
  have hsidx := sbIndex_lt v hwf block hb
  have hbspos : 0 < v.blockSize := by rw [hbs]; exact Nat.mul_pos hwf.spb_pos hss
  have hoff : (block * v.spb + sib) * v.sectorSize = block * v.blockSize + sib * v.sectorSize := by
    rw [Nat.add_mul, Nat.mul_assoc, ← hbs]
  have hin : sib * v.sectorSize + n * v.sectorSize ≤ v.blockSize := by
    rw [← Nat.add_mul, hbs]; exact Nat.mul_le_mul_right _ hfit
  have hlt : sib * v.sectorSize < v.blockSize := by
    rw [hbs]; exact Nat.mul_lt_mul_of_pos_right hsib hss
  have hmod : (block * v.blockSize + sib * v.sectorSize) % v.blockSize = sib * v.sectorSize := by
    rw [Nat.mul_comm block, Nat.mul_add_mod]; exact Nat.mod_eq_of_lt hlt
  have hdiv : (block * v.blockSize + sib * v.sectorSize) / v.blockSize = block := by
    rw [Nat.mul_comm block, Nat.mul_add_div hbspos, Nat.div_eq_of_lt hlt]; rfl
  have harith := fun i (hi : i < n * v.sectorSize) =>
    block_arith (block * v.blockSize + sib * v.sectorSize) v.blockSize (n * v.sectorSize) i hbspos
      (by rw [hmod]; exact hin) hi
  -- the guest byte, by state
  have hguest : ∀ i, i < n * v.sectorSize →
      v.guestDiff pc (block * v.blockSize + sib * v.sectorSize + i) =
        (if v.pbRaw block % 8 = 6 then v.fh.byte (v.pbRaw block / MBs * MBs + (sib * v.sectorSize + i))
         else if v.pbRaw block % 8 = 7 then
           (if v.sectorBit (block * v.blockSize + sib * v.sectorSize + i) = 1
            then v.fh.byte (v.pbRaw block / MBs * MBs + (sib * v.sectorSize + i))
            else pc (block * v.blockSize + sib * v.sectorSize + i))
         else if v.pbRaw block % 8 = 0 then pc (block * v.blockSize + sib * v.sectorSize + i)
         else 0) := by
    intro i hi
    obtain ⟨h1, h2⟩ := harith i hi
    simp only [Vhdx.guestDiff, Layer.over, Vhdx.layer, h1, h2, hdiv, hmod]
    by_cases s6 : v.pbRaw block % 8 = 6
    · simp [s6]
    · by_cases s7 : v.pbRaw block % 8 = 7
      · simp only [s7, if_true, or_true]
        by_cases hbit : v.sectorBit (block * v.blockSize + sib * v.sectorSize + i) = 1
        · simp [hbit]
        · simp [hbit]
      · by_cases s0 : v.pbRaw block % 8 = 0
        · simp [s0]
        · simp [s6, s7, s0]
  have c0 : PAYLOAD_BLOCK_NOT_PRESENT = 0 := rfl
  have c1 : PAYLOAD_BLOCK_UNDEFINED = 1 := rfl
  have c2 : PAYLOAD_BLOCK_ZERO = 2 := rfl
  have c3 : PAYLOAD_BLOCK_UNMAPPED = 3 := rfl
  have c6 : PAYLOAD_BLOCK_FULLY_PRESENT = 6 := rfl
  have c7 : PAYLOAD_BLOCK_PARTIALLY_PRESENT = 7 := rfl
  unfold Vhdx.chunk
  rw [batGet_ok v _ hidx hwf.table_in]
  simp only [bind, Except.bind, c0, c1, c2, c3, c6, c7, hpar]
  rw [batGet_ok v _ hsidx hwf.table_in, batRaw_sbIndex]
  simp only
  rw [show v.batRaw (v.pbIndex block) = v.pbRaw block from rfl]
  rw [show MB = MBs from by decide, show (2:Nat) ^ 20 = MBs from rfl]
  rw [hoff]
  have hent := hwf.entries block hb
  -- the sector bit of byte `i` of the request
  have hsecbit : ∀ j, j < n → ∀ i, i < v.sectorSize →
      v.sectorBit (block * v.blockSize + sib * v.sectorSize + (j * v.sectorSize + i))
        = bitOf (v.fh.byte (v.sbRaw block / MBs * MBs + ((block % v.chunkRatio) * v.spb + sib + j) / 8)).toNat
            (((block % v.chunkRatio) * v.spb + sib + j) % 8) := by
    intro j hj i hi
    have hlt' : j * v.sectorSize + i < n * v.sectorSize := by
      have : (j + 1) * v.sectorSize ≤ n * v.sectorSize := Nat.mul_le_mul_right _ hj
      rw [Nat.add_mul, Nat.one_mul] at this
      omega
    obtain ⟨h1, h2⟩ := harith _ hlt'
    unfold Vhdx.sectorBit
    simp only [h1, h2, hdiv, hmod]
    have : (sib * v.sectorSize + (j * v.sectorSize + i)) / v.sectorSize = sib + j := by
      rw [← Nat.add_assoc, ← Nat.add_mul, Nat.mul_comm, Nat.mul_add_div hss, Nat.div_eq_of_lt hi]; rfl
    rw [this, Nat.add_assoc]
  generalize hE : v.pbRaw block = e at *
  generalize hSB : v.sbRaw block = sbe at *
  have hMB : MB = MBs := by decide
  generalize MBs = M at *
  rcases hent with hz | ⟨h6, hfile⟩ | ⟨h7, hfile, hbm⟩
  · by_cases h0 : e % 8 = 0
    · -- not present: the parent
      simp only [h0, if_true]
      rw [hpr0, hoff]
      apply congrArg Except.ok
      apply slice_congr
      intro i hi
      rw [hguest i hi]
      simp [h0]
    · have hor : e % 8 = 1 ∨ e % 8 = 2 ∨ e % 8 = 3 := by omega
      simp only [h0, if_false, hor, if_true]
      apply congrArg Except.ok
      apply zeros_eq_slice
      intro i hi
      rw [hguest i hi]
      have : ¬ e % 8 = 6 := by omega
      have : ¬ e % 8 = 7 := by omega
      simp [*]
  · have h0 : ¬ e % 8 = 0 := by omega
    have hor : ¬ (e % 8 = 1 ∨ e % 8 = 2 ∨ e % 8 = 3) := by omega
    simp only [h6, if_true]
    have hfits : e / M * M + sib * v.sectorSize + n * v.sectorSize ≤ v.fh.size := by omega
    rw [File.read_eq_slice v.fh _ _ hfits]
    apply congrArg Except.ok
    apply slice_shift
    intro i hi
    rw [hguest i hi, Nat.add_assoc]
    simp [h6]
  · have h0 : ¬ e % 8 = 0 := by omega
    have hor : ¬ (e % 8 = 1 ∨ e % 8 = 2 ∨ e % 8 = 3) := by omega
    have h6 : ¬ e % 8 = 6 := by omega
    rw [h7] at h0 hor h6
    simp only [h7, h0, hor, h6, if_false, if_true]
    -- the bitmap bytes fetched
    generalize hsic : block % v.chunkRatio * v.spb + sib = sic at *
    have hsicn : sic + n ≤ v.chunkRatio * v.spb := by
      have hm := Nat.mod_lt block hr
      have : (block % v.chunkRatio + 1) * v.spb ≤ v.chunkRatio * v.spb := Nat.mul_le_mul_right _ hm
      rw [Nat.add_mul, Nat.one_mul] at this
      omega
    generalize hT : v.chunkRatio * v.spb = T at *
    generalize hnb : (sic % 8 + n + 8 - 1) / 8 = nb
    have hnb1 : sic % 8 + n ≤ 8 * nb := by omega
    have hnb2 : sic / 8 + nb ≤ (T + 7) / 8 := by omega
    rw [File.read_eq_slice v.fh _ _ (by omega)]
    have hne : slice v.fh.byte (sbe / M * M + sic / 8) nb ≠ [] := by
      intro h
      have := congrArg List.length h
      simp at this
      omega
    rw [iterPartialRuns_eq _ _ _ (Nat.mod_lt _ (by omega)) hne]
    simp only [slice_length]
    have hmin : min n (8 * nb - sic % 8) = n := by omega
    rw [hmin]
    generalize hbmp : slice v.fh.byte (sbe / M * M + sic / 8) nb = bitmap
    have hbitEq : ∀ j, j < n → bitAt bitmap (sic % 8 + j)
        = bitOf (v.fh.byte (sbe / M * M + (sic + j) / 8)).toNat ((sic + j) % 8) := by
      intro j hj
      unfold bitAt
      rw [← hbmp, slice_getD _ _ _ _ (by omega)]
      have e1 : sbe / M * M + sic / 8 + (sic % 8 + j) / 8 = sbe / M * M + (sic + j) / 8 := by omega
      have e2 : (sic % 8 + j) % 8 = (sic + j) % 8 := by omega
      rw [e1, e2]
    have hoffj : ∀ j i, (block * v.spb + sib + j) * v.sectorSize + i
        = block * v.blockSize + sib * v.sectorSize + (j * v.sectorSize + i) := by
      intro j i
      rw [Nat.add_mul _ j, hoff]; omega
    have hlt' : ∀ j, j < n → ∀ i, i < v.sectorSize → j * v.sectorSize + i < n * v.sectorSize := by
      intro j hj i hi
      have : (j + 1) * v.sectorSize ≤ n * v.sectorSize := Nat.mul_le_mul_right _ hj
      rw [Nat.add_mul, Nat.one_mul] at this
      omega
    have hpd := partialData_ok v p hpar pc (v.guestDiff pc) (e / M) (block * v.spb + sib) sib n v.nSectors
      (fun j => bitAt bitmap (sic % 8 + j)) hss hpr hN
      (by
        have : (sib + n) * v.sectorSize ≤ v.blockSize := by rw [Nat.add_mul]; exact hin
        rw [hMB]; omega)
      (by
        intro j hj hb0 i hi
        rw [hoffj, hguest _ (hlt' j hj i hi), hsecbit j hj i hi, ← hbitEq j hj, hb0]
        simp [h7])
      (by
        intro j hj hb1 i hi
        have hb1' : bitAt bitmap (sic % 8 + j) = 1 := by
          have := bitOf_lt (bitmap.getD ((sic % 8 + j) / 8) 0).toNat ((sic % 8 + j) % 8)
          unfold bitAt at hb1 ⊢
          omega
        rw [hoffj, hguest _ (hlt' j hj i hi), hsecbit j hj i hi, ← hbitEq j hj, hb1', hMB]
        simp only [h7, if_true, h6, if_false]
        apply congrArg v.fh.byte
        rw [Nat.add_mul sib j]; omega)
      (rle (bits bitmap (sic % 8) n)) 0
      (by rw [expand_rle, bits_length]; omega)
      (by
        intro j hj
        rw [expand_rle, bits_length] at hj
        rw [expand_rle]
        simp [bits, hj])
    rw [expand_rle, bits_length, Nat.add_zero, hoff] at hpd
    exact hpd

theorem size_le_blocks (v : Vhdx) (hbpos : 0 < v.blockSize) : v.size ≤ v.pbCount * v.blockSize := by
  unfold Vhdx.pbCount
  have := Nat.div_add_mod (v.size + v.blockSize - 1) v.blockSize
  have := Nat.mod_lt (v.size + v.blockSize - 1) hbpos
  rw [Nat.mul_comm]; omega

theorem nSectors_le (v : Vhdx) (hss : 0 < v.sectorSize) (hspb : 0 < v.spb) (hbs : v.blockSize = v.spb * v.sectorSize) :
    v.nSectors ≤ v.pbCount * v.spb := by
  have hbpos : 0 < v.blockSize := by rw [hbs]; exact Nat.mul_pos hspb hss
  have h := size_le_blocks v hbpos
  rw [hbs, ← Nat.mul_assoc] at h
  unfold Vhdx.nSectors
  apply Nat.le_of_lt_succ
  apply Nat.div_lt_of_lt_mul
  rw [Nat.mul_succ, Nat.mul_comm v.sectorSize]
  omega

/-- the block loop of a differencing image -/
theorem readSectors_diff_correct (v : Vhdx) (pc : Nat → UInt8) (hwf : WFD v) (hp : ParentOK v pc) :
    ∀ fuel sector count, count ≤ fuel → sector + count ≤ v.nSectors →
      v.readSectors fuel sector count
        = .ok (slice (v.guestDiff pc) (sector * v.sectorSize) (count * v.sectorSize)) := by
  have hspb := hwf.spb_pos
  have hns := nSectors_le v hwf.ss_pos hwf.spb_pos hwf.bs
  intro fuel
  induction fuel with
  | zero =>
    intro s c h _
    have : c = 0 := by omega
    subst this; simp [Vhdx.readSectors]
  | succ fuel ih =>
    intro sector count hf hb
    unfold Vhdx.readSectors
    by_cases hc : count = 0
    · subst hc; simp
    · have hne : ¬ v.spb = 0 := by omega
      simp only [hc, hne, if_false]
      have hmod : sector % v.spb < v.spb := Nat.mod_lt _ hspb
      generalize hn : min count (v.spb - sector % v.spb) = n
      have hn1 : 1 ≤ n := by omega
      have hn2 : n ≤ count := by omega
      have hn3 : sector % v.spb + n ≤ v.spb := by omega
      have hblk : sector / v.spb < v.pbCount := by
        apply Nat.div_lt_of_lt_mul
        rw [Nat.mul_comm]; omega
      have hsec : sector = sector / v.spb * v.spb + sector % v.spb := by
        have := Nat.div_add_mod sector v.spb
        rw [Nat.mul_comm] at this; omega
      have hck := chunk_diff_ok v pc hwf hp (sector / v.spb) (sector % v.spb) n hblk hmod hn3 hn1
        (by rw [← hsec]; omega)
      rw [← hsec] at hck
      rw [hck]
      simp only [bind, Except.bind]
      by_cases hrest : count - n = 0
      · rw [hrest, readSectors_zero]
        have : count = n := by omega
        subst this; simp
      · rw [ih (sector + n) (count - n) (by omega) (by omega)]
        simp only
        apply congrArg Except.ok
        have hsplit : count * v.sectorSize = n * v.sectorSize + (count - n) * v.sectorSize := by
          rw [← Nat.add_mul]; congr 1; omega
        rw [hsplit, slice_append, Nat.add_mul]

/-- `read_sectors` of a differencing image reads its own disk -/
theorem diff_sectorReadsAs (v : Vhdx) (pc : Nat → UInt8) (hwf : WFD v) (hp : ParentOK v pc) :
    SectorReadsAs (fun s c => v.readSectors c s c) v.sectorSize v.nSectors (v.guestDiff pc) :=
  fun s c h => readSectors_diff_correct v pc hwf hp c s c (Nat.le_refl _) h

/-- `read_sectors` of a non-differencing image (C03) reads its own disk -/
theorem base_sectorReadsAs (v : Vhdx) (hwf : WF v) :
    SectorReadsAs (fun s c => v.readSectors c s c) v.sectorSize v.nSectors v.guest := by
  intro s c h
  have := nSectors_le v hwf.ss_pos hwf.spb_pos hwf.bs
  exact readSectors_correct v hwf c s c (Nat.le_refl _) (by
    show s + c ≤ (v.size + v.blockSize - 1) / v.blockSize * v.spb
    exact Nat.le_trans h this)

/-- `_read` at a sector-aligned offset, given that `read_sectors` serves the content `g` -/
theorem read_prefix_of (v : Vhdx) (g : Nat → UInt8) (hss : 0 < v.sectorSize)
    (hrs : SectorReadsAs (fun s c => v.readSectors c s c) v.sectorSize v.nSectors g)
    (off len : Nat) (ho : off % v.sectorSize = 0) :
    ∃ b, v.read off len = .ok b ∧
      b.take (min len (v.size - off)) = slice g off (min len (v.size - off)) ∧
      (len % v.sectorSize = 0 → off + len ≤ v.size → b = slice g off len) := by
  unfold Vhdx.read
  simp only
  generalize hL : min len (v.size - off) = L
  have hoff : off / v.sectorSize * v.sectorSize = off := by
    have := Nat.div_add_mod off v.sectorSize
    rw [ho, Nat.mul_comm] at this; omega
  by_cases hLz : L = 0
  · subst hLz
    have hc : (0 + v.sectorSize - 1) / v.sectorSize = 0 := by
      apply Nat.div_eq_of_lt; omega
    simp only [hc, readSectors_zero]
    refine ⟨_, rfl, by simp, ?_⟩
    intro _ hle
    have : len = 0 := by omega
    subst this; simp
  · have hLle : off + L ≤ v.size := by omega
    generalize hC : (L + v.sectorSize - 1) / v.sectorSize = C
    have hCl : L ≤ C * v.sectorSize := by
      rw [← hC]
      have := Nat.div_add_mod (L + v.sectorSize - 1) v.sectorSize
      have := Nat.mod_lt (L + v.sectorSize - 1) hss
      rw [Nat.mul_comm]; omega
    have hCu : C * v.sectorSize < L + v.sectorSize := by
      rw [← hC]
      have := Nat.div_mul_le_self (L + v.sectorSize - 1) v.sectorSize
      omega
    have hfit : off / v.sectorSize + C ≤ v.nSectors := by
      unfold Vhdx.nSectors
      apply Nat.le_of_lt_succ
      rw [Nat.lt_succ_iff, Nat.le_div_iff_mul_le hss, Nat.add_mul, hoff]
      omega
    have := hrs (off / v.sectorSize) C hfit
    simp only at this
    rw [this, hoff]
    refine ⟨_, rfl, ?_, ?_⟩
    · rw [slice_take _ _ _ _ hCl]
    · intro hl hle
      have hLl : L = len := by omega
      subst hLl
      have : C * v.sectorSize = L := by
        obtain ⟨k, hk⟩ := Nat.dvd_of_mod_eq_zero hl
        rw [hk, Nat.mul_comm v.sectorSize k] at hCl hCu ⊢
        have h1 : k ≤ C := Nat.le_of_mul_le_mul_right hCl hss
        have h2 : C < k + 1 := by
          apply Nat.lt_of_mul_lt_mul_right (a := v.sectorSize)
          rw [Nat.add_mul, Nat.one_mul]; exact hCu
        have : C = k := by omega
        rw [this]
      rw [this]

theorem backendOK_of (v : Vhdx) (g : Nat → UInt8) (hss : 0 < v.sectorSize)
    (hrs : SectorReadsAs (fun s c => v.readSectors c s c) v.sectorSize v.nSectors g)
    (align : Nat) (ha : align % v.sectorSize = 0) :
    BackendOK v.size align v.read g := by
  have hd := Nat.dvd_of_mod_eq_zero ha
  constructor
  · intro off len ho _ _
    have : off % v.sectorSize = 0 := by
      have := Nat.mod_mod_of_dvd off hd
      rw [ho] at this; simpa using this.symm
    obtain ⟨b, hb, hp, _⟩ := read_prefix_of v g hss hrs off len this
    exact ⟨b, hb, hp⟩
  · intro off len ho hl hle
    have h1 : off % v.sectorSize = 0 := by
      have := Nat.mod_mod_of_dvd off hd
      rw [ho] at this; simpa using this.symm
    have h2 : len % v.sectorSize = 0 := by
      have := Nat.mod_mod_of_dvd len hd
      rw [hl] at this; simpa using this.symm
    obtain ⟨b, hb, _, he⟩ := read_prefix_of v g hss hrs off len h1
    rw [hb, he h2 hle]

theorem wfdb_sound (v : Vhdx) (h : v.wfdb = true) : WFD v := by
  unfold Vhdx.wfdb at h
  simp only [Bool.and_eq_true, decide_eq_true_eq, List.all_eq_true, List.mem_range, Bool.or_eq_true] at h
  obtain ⟨⟨⟨⟨⟨⟨h1, h2⟩, h3⟩, h4⟩, h5⟩, h6⟩, h7⟩ := h
  exact ⟨h1, h2, h3, h4, h5, h6, fun b hb => by
    rcases h7 b hb with (h | ⟨ha, hb'⟩) | ⟨⟨ha, hb'⟩, hc⟩
    · exact Or.inl h
    · exact Or.inr (Or.inl ⟨ha, hb'⟩)
    · exact Or.inr (Or.inr ⟨ha, hb', hc⟩)⟩

end Hv.Vhdx
